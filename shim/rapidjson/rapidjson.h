// Minimal stand-in for the subset of RapidJSON used by libawkward (spike).
#ifndef SHIM_RAPIDJSON_H_
#define SHIM_RAPIDJSON_H_
#include <cstdint>
#include <cstdio>
#include <cstring>
#include <cstdlib>
#include <cmath>
#include <string>
#include <vector>
#include <memory>
#include <utility>
#include <stdexcept>

namespace rapidjson {
  typedef unsigned SizeType;
  template <typename CharType = char> struct UTF8 { typedef CharType Ch; };

  enum ParseFlag {
    kParseNoFlags = 0, kParseInsituFlag = 1, kParseValidateEncodingFlag = 2,
    kParseIterativeFlag = 4, kParseStopWhenDoneFlag = 8, kParseFullPrecisionFlag = 16,
    kParseCommentsFlag = 32, kParseNumbersAsStringsFlag = 64, kParseTrailingCommasFlag = 128,
    kParseNanAndInfFlag = 256, kParseDefaultFlags = 0
  };
  enum ParseErrorCode {
    kParseErrorNone = 0, kParseErrorDocumentEmpty, kParseErrorDocumentRootNotSingular,
    kParseErrorValueInvalid, kParseErrorObjectMissName, kParseErrorObjectMissColon,
    kParseErrorObjectMissCommaOrCurlyBracket, kParseErrorArrayMissCommaOrSquareBracket,
    kParseErrorStringUnicodeEscapeInvalidHex, kParseErrorStringUnicodeSurrogateInvalid,
    kParseErrorStringEscapeInvalid, kParseErrorStringMissQuotationMark,
    kParseErrorStringInvalidEncoding, kParseErrorNumberTooBig, kParseErrorNumberMissFraction,
    kParseErrorNumberMissExponent, kParseErrorTermination, kParseErrorUnspecificSyntaxError
  };
  struct ParseResult {
    ParseResult() : code_(kParseErrorNone), offset_(0) {}
    ParseResult(ParseErrorCode c, size_t o) : code_(c), offset_(o) {}
    ParseErrorCode Code() const { return code_; }
    size_t Offset() const { return offset_; }
    bool IsError() const { return code_ != kParseErrorNone; }
    operator bool() const { return !IsError(); }
    ParseErrorCode code_; size_t offset_;
  };

  ////////// streams
  struct StringStream {
    typedef char Ch;
    StringStream(const char* src) : src_(src), head_(src) {}
    char Peek() const { return *src_; }
    char Take() { return *src_++; }
    size_t Tell() const { return (size_t)(src_ - head_); }
    const char* src_; const char* head_;
  };
  class FileReadStream {
  public:
    typedef char Ch;
    FileReadStream(std::FILE* fp, char* buffer, size_t bufferSize)
      : fp_(fp), buffer_(buffer), bufferSize_(bufferSize), bufferLast_(0),
        current_(buffer), readCount_(0), count_(0), eof_(false) { Read(); }
    char Peek() const { return *current_; }
    char Take() { char c = *current_; Read(); return c; }
    size_t Tell() const { return count_ + (size_t)(current_ - buffer_); }
  private:
    void Read() {
      if (current_ < bufferLast_) { ++current_; }
      else if (!eof_) {
        count_ += readCount_;
        readCount_ = std::fread(buffer_, 1, bufferSize_, fp_);
        bufferLast_ = buffer_ + readCount_ - 1;
        current_ = buffer_;
        if (readCount_ < bufferSize_) {
          buffer_[readCount_] = '\0'; ++bufferLast_; eof_ = true;
        }
      }
    }
    std::FILE* fp_; char* buffer_; size_t bufferSize_; char* bufferLast_;
    char* current_; size_t readCount_; size_t count_; bool eof_;
  };
  class StringBuffer {
  public:
    typedef char Ch;
    void Put(char c) { s_.push_back(c); }
    void Flush() {}
    void Clear() { s_.clear(); }
    const char* GetString() const { return s_.c_str(); }
    size_t GetSize() const { return s_.size(); }
    size_t GetLength() const { return s_.size(); }
  private:
    std::string s_;
  };
  class FileWriteStream {
  public:
    typedef char Ch;
    FileWriteStream(std::FILE* fp, char* buffer, size_t bufferSize)
      : fp_(fp), buffer_(buffer), bufferEnd_(buffer + bufferSize), current_(buffer) {}
    void Put(char c) { if (current_ >= bufferEnd_) Flush(); *current_++ = c; }
    void Flush() {
      if (current_ != buffer_) {
        size_t n = std::fwrite(buffer_, 1, (size_t)(current_ - buffer_), fp_);
        (void)n; current_ = buffer_;
      }
    }
  private:
    std::FILE* fp_; char* buffer_; char* bufferEnd_; char* current_;
  };

  ////////// SAX handler base
  template <typename Encoding = UTF8<>, typename Derived = void>
  struct BaseReaderHandler {
    typedef char Ch;
    bool Default() { return true; }
    bool Null() { return static_cast<Derived&>(*this).Default(); }
    bool Bool(bool) { return static_cast<Derived&>(*this).Default(); }
    bool Int(int) { return static_cast<Derived&>(*this).Default(); }
    bool Uint(unsigned) { return static_cast<Derived&>(*this).Default(); }
    bool Int64(int64_t) { return static_cast<Derived&>(*this).Default(); }
    bool Uint64(uint64_t) { return static_cast<Derived&>(*this).Default(); }
    bool Double(double) { return static_cast<Derived&>(*this).Default(); }
    bool RawNumber(const Ch* s, SizeType l, bool c) { return static_cast<Derived&>(*this).String(s, l, c); }
    bool String(const Ch*, SizeType, bool) { return static_cast<Derived&>(*this).Default(); }
    bool StartObject() { return static_cast<Derived&>(*this).Default(); }
    bool Key(const Ch* s, SizeType l, bool c) { return static_cast<Derived&>(*this).String(s, l, c); }
    bool EndObject(SizeType) { return static_cast<Derived&>(*this).Default(); }
    bool StartArray() { return static_cast<Derived&>(*this).Default(); }
    bool EndArray(SizeType) { return static_cast<Derived&>(*this).Default(); }
  };

  ////////// reader (recursive descent SAX parser)
  class Reader {
  public:
    Reader() {}
    template <unsigned parseFlags, typename InputStream, typename Handler>
    ParseResult Parse(InputStream& is, Handler& handler) {
      result_ = ParseResult();
      SkipWs(is);
      if (is.Peek() == '\0') { SetErr(kParseErrorDocumentEmpty, is); return result_; }
      ParseValue<parseFlags>(is, handler, 0);
      if (result_.IsError()) return result_;
      if (!(parseFlags & kParseStopWhenDoneFlag)) {
        SkipWs(is);
        if (is.Peek() != '\0') SetErr(kParseErrorDocumentRootNotSingular, is);
      }
      return result_;
    }
    template <typename InputStream, typename Handler>
    ParseResult Parse(InputStream& is, Handler& handler) { return Parse<kParseDefaultFlags>(is, handler); }
    bool HasParseError() const { return result_.IsError(); }
    ParseErrorCode GetParseErrorCode() const { return result_.Code(); }
    size_t GetErrorOffset() const { return result_.Offset(); }
  private:
    ParseResult result_;
    template <typename IS> void SetErr(ParseErrorCode c, IS& is) { if (!result_.IsError()) result_ = ParseResult(c, is.Tell()); }
    template <typename IS> static void SkipWs(IS& is) {
      char c; while ((c = is.Peek()) == ' ' || c == '\n' || c == '\r' || c == '\t') is.Take();
    }
    template <typename IS> static bool Consume(IS& is, char e) { if (is.Peek() == e) { is.Take(); return true; } return false; }

    template <unsigned F, typename IS, typename H> void ParseValue(IS& is, H& h, int depth) {
      if (depth > 4000) { SetErr(kParseErrorTermination, is); return; }
      switch (is.Peek()) {
        case 'n': ParseLiteral(is, "null"); if (!result_.IsError() && !h.Null()) SetErr(kParseErrorTermination, is); break;
        case 't': ParseLiteral(is, "true"); if (!result_.IsError() && !h.Bool(true)) SetErr(kParseErrorTermination, is); break;
        case 'f': ParseLiteral(is, "false"); if (!result_.IsError() && !h.Bool(false)) SetErr(kParseErrorTermination, is); break;
        case '"': { std::string s; ParseStringInto(is, s); if (result_.IsError()) return;
                    if (!h.String(s.c_str(), (SizeType)s.size(), true)) SetErr(kParseErrorTermination, is); break; }
        case '{': ParseObject<F>(is, h, depth); break;
        case '[': ParseArray<F>(is, h, depth); break;
        default: ParseNumber<F>(is, h); break;
      }
    }
    template <typename IS> void ParseLiteral(IS& is, const char* lit) {
      for (const char* p = lit; *p; ++p) { if (is.Peek() != *p) { SetErr(kParseErrorValueInvalid, is); return; } is.Take(); }
    }
    template <unsigned F, typename IS, typename H> void ParseObject(IS& is, H& h, int depth) {
      is.Take();
      if (!h.StartObject()) { SetErr(kParseErrorTermination, is); return; }
      SkipWs(is);
      if (Consume(is, '}')) { if (!h.EndObject(0)) SetErr(kParseErrorTermination, is); return; }
      for (SizeType n = 0;;) {
        if (is.Peek() != '"') { SetErr(kParseErrorObjectMissName, is); return; }
        std::string k; ParseStringInto(is, k); if (result_.IsError()) return;
        if (!h.Key(k.c_str(), (SizeType)k.size(), true)) { SetErr(kParseErrorTermination, is); return; }
        SkipWs(is);
        if (!Consume(is, ':')) { SetErr(kParseErrorObjectMissColon, is); return; }
        SkipWs(is);
        ParseValue<F>(is, h, depth + 1); if (result_.IsError()) return;
        SkipWs(is); ++n;
        switch (is.Peek()) {
          case ',': is.Take(); SkipWs(is); break;
          case '}': is.Take(); if (!h.EndObject(n)) SetErr(kParseErrorTermination, is); return;
          default: SetErr(kParseErrorObjectMissCommaOrCurlyBracket, is); return;
        }
      }
    }
    template <unsigned F, typename IS, typename H> void ParseArray(IS& is, H& h, int depth) {
      is.Take();
      if (!h.StartArray()) { SetErr(kParseErrorTermination, is); return; }
      SkipWs(is);
      if (Consume(is, ']')) { if (!h.EndArray(0)) SetErr(kParseErrorTermination, is); return; }
      for (SizeType n = 0;;) {
        ParseValue<F>(is, h, depth + 1); if (result_.IsError()) return;
        ++n; SkipWs(is);
        if (Consume(is, ',')) { SkipWs(is); }
        else if (Consume(is, ']')) { if (!h.EndArray(n)) SetErr(kParseErrorTermination, is); return; }
        else { SetErr(kParseErrorArrayMissCommaOrSquareBracket, is); return; }
      }
    }
    static void EncodeUtf8(std::string& out, unsigned cp) {
      if (cp <= 0x7F) out.push_back((char)cp);
      else if (cp <= 0x7FF) { out.push_back((char)(0xC0 | (cp >> 6))); out.push_back((char)(0x80 | (cp & 0x3F))); }
      else if (cp <= 0xFFFF) { out.push_back((char)(0xE0 | (cp >> 12))); out.push_back((char)(0x80 | ((cp >> 6) & 0x3F))); out.push_back((char)(0x80 | (cp & 0x3F))); }
      else { out.push_back((char)(0xF0 | (cp >> 18))); out.push_back((char)(0x80 | ((cp >> 12) & 0x3F))); out.push_back((char)(0x80 | ((cp >> 6) & 0x3F))); out.push_back((char)(0x80 | (cp & 0x3F))); }
    }
    template <typename IS> unsigned ParseHex4(IS& is) {
      unsigned cp = 0;
      for (int i = 0; i < 4; i++) {
        char c = is.Peek(); cp <<= 4;
        if (c >= '0' && c <= '9') cp += (unsigned)(c - '0');
        else if (c >= 'A' && c <= 'F') cp += (unsigned)(c - 'A' + 10);
        else if (c >= 'a' && c <= 'f') cp += (unsigned)(c - 'a' + 10);
        else { SetErr(kParseErrorStringUnicodeEscapeInvalidHex, is); return 0; }
        is.Take();
      }
      return cp;
    }
    template <typename IS> void ParseStringInto(IS& is, std::string& out) {
      is.Take();  // opening quote
      for (;;) {
        char c = is.Peek();
        if (c == '\\') {
          is.Take(); char e = is.Peek();
          switch (e) {
            case '"': out.push_back('"'); is.Take(); break;
            case '\\': out.push_back('\\'); is.Take(); break;
            case '/': out.push_back('/'); is.Take(); break;
            case 'b': out.push_back('\b'); is.Take(); break;
            case 'f': out.push_back('\f'); is.Take(); break;
            case 'n': out.push_back('\n'); is.Take(); break;
            case 'r': out.push_back('\r'); is.Take(); break;
            case 't': out.push_back('\t'); is.Take(); break;
            case 'u': {
              is.Take(); unsigned cp = ParseHex4(is); if (result_.IsError()) return;
              if (cp >= 0xD800 && cp <= 0xDBFF) {
                if (!Consume(is, '\\') || !Consume(is, 'u')) { SetErr(kParseErrorStringUnicodeSurrogateInvalid, is); return; }
                unsigned cp2 = ParseHex4(is); if (result_.IsError()) return;
                if (cp2 < 0xDC00 || cp2 > 0xDFFF) { SetErr(kParseErrorStringUnicodeSurrogateInvalid, is); return; }
                cp = (((cp - 0xD800) << 10) | (cp2 - 0xDC00)) + 0x10000;
              } else if (cp >= 0xDC00 && cp <= 0xDFFF) { SetErr(kParseErrorStringUnicodeSurrogateInvalid, is); return; }
              EncodeUtf8(out, cp); break; }
            default: SetErr(kParseErrorStringEscapeInvalid, is); return;
          }
        }
        else if (c == '"') { is.Take(); return; }
        else if ((unsigned char)c < 0x20) {
          SetErr(c == '\0' ? kParseErrorStringMissQuotationMark : kParseErrorStringInvalidEncoding, is); return;
        }
        else { out.push_back(c); is.Take(); }
      }
    }
    template <unsigned F, typename IS, typename H> void ParseNumber(IS& is, H& h) {
      std::string txt; bool minus = false, isdouble = false;
      if (is.Peek() == '-') { minus = true; txt.push_back(is.Take()); }
      if ((F & kParseNanAndInfFlag) && (is.Peek() == 'N' || is.Peek() == 'I')) {
        if (is.Peek() == 'N') { ParseLiteral(is, "NaN"); if (result_.IsError()) return;
          if (!h.Double(std::nan(""))) SetErr(kParseErrorTermination, is); return; }
        ParseLiteral(is, "Inf"); if (result_.IsError()) return;
        if (is.Peek() == 'i') { ParseLiteral(is, "inity"); if (result_.IsError()) return; }
        if (!h.Double(minus ? -INFINITY : INFINITY)) SetErr(kParseErrorTermination, is); return;
      }
      if (is.Peek() == '0') { txt.push_back(is.Take()); }
      else if (is.Peek() >= '1' && is.Peek() <= '9') { while (is.Peek() >= '0' && is.Peek() <= '9') txt.push_back(is.Take()); }
      else { SetErr(kParseErrorValueInvalid, is); return; }
      if (is.Peek() == '.') {
        isdouble = true; txt.push_back(is.Take());
        if (!(is.Peek() >= '0' && is.Peek() <= '9')) { SetErr(kParseErrorNumberMissFraction, is); return; }
        while (is.Peek() >= '0' && is.Peek() <= '9') txt.push_back(is.Take());
      }
      if (is.Peek() == 'e' || is.Peek() == 'E') {
        isdouble = true; txt.push_back(is.Take());
        if (is.Peek() == '+' || is.Peek() == '-') txt.push_back(is.Take());
        if (!(is.Peek() >= '0' && is.Peek() <= '9')) { SetErr(kParseErrorNumberMissExponent, is); return; }
        while (is.Peek() >= '0' && is.Peek() <= '9') txt.push_back(is.Take());
      }
      bool ok = true;
      if (!isdouble) {
        // integer: classify like RapidJSON (Int, Uint, Int64, Uint64, else Double)
        const char* digits = txt.c_str() + (minus ? 1 : 0);
        size_t nd = std::strlen(digits);
        bool fits64 = nd < 20 || (nd == 20 && std::strcmp(digits, "18446744073709551615") <= 0);
        if (fits64) {
          uint64_t u = std::strtoull(digits, nullptr, 10);
          if (minus) {
            if (u <= (uint64_t)2147483648ULL) ok = h.Int((int)(-(int64_t)u));
            else if (u <= (uint64_t)9223372036854775808ULL) ok = h.Int64((int64_t)(0 - u));
            else isdouble = true;
          } else {
            if (u <= 2147483647ULL) ok = h.Int((int)u);
            else if (u <= 4294967295ULL) ok = h.Uint((unsigned)u);
            else if (u <= 9223372036854775807ULL) ok = h.Int64((int64_t)u);
            else ok = h.Uint64(u);
          }
        } else isdouble = true;
      }
      if (isdouble) {
        double d = std::strtod(txt.c_str(), nullptr);
        if (std::isinf(d)) { SetErr(kParseErrorNumberTooBig, is); return; }
        ok = h.Double(d);
      }
      if (!ok) SetErr(kParseErrorTermination, is);
    }
  };
  typedef Reader GenericReaderDefault;

  ////////// DOM
  class Value;
  struct Member;
  class Value {
  public:
    enum Kind { kNull, kFalse, kTrue, kInt, kUint, kInt64, kUint64, kDouble, kString, kArray, kObject };
    Value() : kind_(kNull), i_(0), u_(0), d_(0) {}
    bool IsNull() const { return kind_ == kNull; }
    bool IsBool() const { return kind_ == kFalse || kind_ == kTrue; }
    bool IsTrue() const { return kind_ == kTrue; }
    bool IsFalse() const { return kind_ == kFalse; }
    bool IsNumber() const { return kind_ >= kInt && kind_ <= kDouble; }
    bool IsInt() const { return kind_ == kInt || (kind_ == kUint && u_ <= 2147483647ULL); }
    bool IsUint() const { return kind_ == kUint || (kind_ == kInt && i_ >= 0); }
    bool IsInt64() const { return kind_ == kInt || kind_ == kUint || kind_ == kInt64 || (kind_ == kUint64 && u_ <= 9223372036854775807ULL); }
    bool IsUint64() const { return kind_ == kUint || kind_ == kUint64 || ((kind_ == kInt || kind_ == kInt64) && i_ >= 0); }
    bool IsDouble() const { return kind_ == kDouble; }
    bool IsString() const { return kind_ == kString; }
    bool IsArray() const { return kind_ == kArray; }
    bool IsObject() const { return kind_ == kObject; }
    bool GetBool() const { return kind_ == kTrue; }
    int GetInt() const { return (int)AsI(); }
    unsigned GetUint() const { return (unsigned)AsU(); }
    int64_t GetInt64() const { return AsI(); }
    uint64_t GetUint64() const { return AsU(); }
    double GetDouble() const {
      if (kind_ == kDouble) return d_;
      if (kind_ == kInt || kind_ == kInt64) return (double)i_;
      return (double)u_;
    }
    const char* GetString() const { return s_.c_str(); }
    SizeType GetStringLength() const { return (SizeType)s_.size(); }
    SizeType Size() const { return (SizeType)a_.size(); }
    bool Empty() const { return a_.empty(); }
    const Value& operator[](SizeType i) const { return a_[i]; }
    const Value& operator[](int i) const { return a_[(size_t)i]; }
    const Value& operator[](const char* name) const;
    const Value& operator[](const std::string& name) const { return (*this)[name.c_str()]; }
    bool HasMember(const char* name) const;
    bool HasMember(const std::string& name) const { return HasMember(name.c_str()); }
    SizeType MemberCount() const { return (SizeType)o_.size(); }
    typedef std::vector<Member>::const_iterator ConstMemberIterator;
    typedef std::vector<Value>::const_iterator ConstValueIterator;
    ConstMemberIterator MemberBegin() const { return o_.begin(); }
    ConstMemberIterator MemberEnd() const { return o_.end(); }
    ConstValueIterator Begin() const { return a_.begin(); }
    ConstValueIterator End() const { return a_.end(); }
    struct ConstArray { const Value& v; ConstValueIterator begin() const { return v.Begin(); } ConstValueIterator end() const { return v.End(); }
                        SizeType Size() const { return v.Size(); } const Value& operator[](SizeType i) const { return v[i]; } };
    struct ConstObject { const Value& v; ConstMemberIterator begin() const { return v.MemberBegin(); } ConstMemberIterator end() const { return v.MemberEnd(); }
                         ConstMemberIterator MemberBegin() const { return v.MemberBegin(); } ConstMemberIterator MemberEnd() const { return v.MemberEnd(); }
                         bool HasMember(const char* n) const { return v.HasMember(n); } const Value& operator[](const char* n) const { return v[n]; } };
    ConstArray GetArray() const { return ConstArray{*this}; }
    ConstObject GetObject() const { return ConstObject{*this}; }
    template <typename Handler> bool Accept(Handler& h) const;
    bool operator==(const Value& rhs) const;
    bool operator!=(const Value& rhs) const { return !(*this == rhs); }
  protected:
    friend class Document; friend struct DomBuilder;
    int64_t AsI() const { if (kind_ == kDouble) return (int64_t)d_; if (kind_ == kUint || kind_ == kUint64) return (int64_t)u_; return i_; }
    uint64_t AsU() const { if (kind_ == kDouble) return (uint64_t)d_; if (kind_ == kInt || kind_ == kInt64) return (uint64_t)i_; return u_; }
    Kind kind_; int64_t i_; uint64_t u_; double d_; std::string s_;
    std::vector<Value> a_; std::vector<Member> o_;
  };
  struct Member { Value name; Value value; };
  inline const Value& Value::operator[](const char* name) const {
    for (const Member& m : o_) if (m.name.s_ == name) return m.value;
    static const Value nullvalue; return nullvalue;
  }
  inline bool Value::HasMember(const char* name) const {
    for (const Member& m : o_) if (m.name.s_ == name) return true;
    return false;
  }
  template <typename Handler> bool Value::Accept(Handler& h) const {
    switch (kind_) {
      case kNull: return h.Null();
      case kFalse: return h.Bool(false);
      case kTrue: return h.Bool(true);
      case kInt: return h.Int((int)i_);
      case kUint: return h.Uint((unsigned)u_);
      case kInt64: return h.Int64(i_);
      case kUint64: return h.Uint64(u_);
      case kDouble: return h.Double(d_);
      case kString: return h.String(s_.c_str(), (SizeType)s_.size(), true);
      case kArray:
        if (!h.StartArray()) return false;
        for (const Value& v : a_) if (!v.Accept(h)) return false;
        return h.EndArray((SizeType)a_.size());
      case kObject:
        if (!h.StartObject()) return false;
        for (const Member& m : o_) {
          if (!h.Key(m.name.s_.c_str(), (SizeType)m.name.s_.size(), true)) return false;
          if (!m.value.Accept(h)) return false;
        }
        return h.EndObject((SizeType)o_.size());
    }
    return false;
  }
  inline bool Value::operator==(const Value& rhs) const {
    if (IsNumber() && rhs.IsNumber()) {
      if (IsDouble() || rhs.IsDouble()) { double a = GetDouble(), b = rhs.GetDouble(); return a >= b && a <= b; }
      bool an = (kind_ == kInt || kind_ == kInt64) && i_ < 0, bn = (rhs.kind_ == kInt || rhs.kind_ == kInt64) && rhs.i_ < 0;
      if (an != bn) return false;
      return an ? (i_ == rhs.i_) : (AsU() == rhs.AsU());
    }
    if (IsBool() && rhs.IsBool()) return kind_ == rhs.kind_;
    if (kind_ != rhs.kind_) return false;
    switch (kind_) {
      case kNull: return true;
      case kString: return s_ == rhs.s_;
      case kArray:
        if (a_.size() != rhs.a_.size()) return false;
        for (size_t i = 0; i < a_.size(); i++) if (!(a_[i] == rhs.a_[i])) return false;
        return true;
      case kObject:
        if (o_.size() != rhs.o_.size()) return false;
        for (const Member& m : o_) {
          bool found = false;
          for (const Member& r : rhs.o_) if (r.name.s_ == m.name.s_) { found = true; if (!(m.value == r.value)) return false; break; }
          if (!found) return false;
        }
        return true;
      default: return true;
    }
  }
  struct DomBuilder {
    std::vector<Value> stack;   // completed values waiting to be attached
    std::vector<size_t> marks;
    bool Push(Value v) { stack.push_back(std::move(v)); return true; }
    bool Null() { return Push(Value()); }
    bool Bool(bool b) { Value v; v.kind_ = b ? Value::kTrue : Value::kFalse; return Push(v); }
    bool Int(int i) { Value v; v.kind_ = Value::kInt; v.i_ = i; v.u_ = (uint64_t)(int64_t)i; return Push(v); }
    bool Uint(unsigned u) { Value v; v.kind_ = Value::kUint; v.u_ = u; v.i_ = (int64_t)u; return Push(v); }
    bool Int64(int64_t i) { Value v; v.kind_ = Value::kInt64; v.i_ = i; v.u_ = (uint64_t)i; return Push(v); }
    bool Uint64(uint64_t u) { Value v; v.kind_ = Value::kUint64; v.u_ = u; v.i_ = (int64_t)u; return Push(v); }
    bool Double(double d) { Value v; v.kind_ = Value::kDouble; v.d_ = d; return Push(v); }
    bool String(const char* s, SizeType l, bool) { Value v; v.kind_ = Value::kString; v.s_.assign(s, l); return Push(v); }
    bool RawNumber(const char* s, SizeType l, bool c) { return String(s, l, c); }
    bool Key(const char* s, SizeType l, bool c) { return String(s, l, c); }
    bool StartObject() { marks.push_back(stack.size()); return true; }
    bool StartArray() { marks.push_back(stack.size()); return true; }
    bool EndObject(SizeType) {
      size_t m = marks.back(); marks.pop_back(); Value v; v.kind_ = Value::kObject;
      for (size_t i = m; i + 1 < stack.size(); i += 2) { Member mem; mem.name = std::move(stack[i]); mem.value = std::move(stack[i + 1]); v.o_.push_back(std::move(mem)); }
      stack.resize(m); return Push(std::move(v));
    }
    bool EndArray(SizeType) {
      size_t m = marks.back(); marks.pop_back(); Value v; v.kind_ = Value::kArray;
      for (size_t i = m; i < stack.size(); i++) v.a_.push_back(std::move(stack[i]));
      stack.resize(m); return Push(std::move(v));
    }
  };
  class Document : public Value {
  public:
    Document() : Value() {}
    template <unsigned parseFlags> Document& Parse(const char* str) {
      StringStream ss(str); Reader reader; DomBuilder b;
      result_ = reader.Parse<parseFlags>(ss, b);
      if (!result_.IsError() && b.stack.size() == 1) { static_cast<Value&>(*this) = std::move(b.stack[0]); }
      else { static_cast<Value&>(*this) = Value(); }
      return *this;
    }
    Document& Parse(const char* str) { return Parse<kParseDefaultFlags>(str); }
    bool HasParseError() const { return result_.IsError(); }
    ParseErrorCode GetParseError() const { return result_.Code(); }
    size_t GetErrorOffset() const { return result_.Offset(); }
  private:
    ParseResult result_;
  };

  ////////// writers
  namespace shim_detail {
    inline std::string ShortestDouble(double d) {
      char buf[40];
      for (int prec = 1; prec <= 17; prec++) {
        std::snprintf(buf, sizeof(buf), "%.*g", prec, d);
        if (std::strtod(buf, nullptr) == d) break;
      }
      std::string s(buf);
      if (s.find('.') == std::string::npos && s.find('e') == std::string::npos &&
          s.find("inf") == std::string::npos && s.find("nan") == std::string::npos) s += ".0";
      else if (s.find('e') != std::string::npos && s.find('.') == std::string::npos) {
        // "1e+21" -> "1e21"-like normalisation: strip '+' and leading zeros of exponent
      }
      size_t e = s.find('e');
      if (e != std::string::npos) {
        std::string mant = s.substr(0, e), ex = s.substr(e + 1);
        bool neg = false; size_t k = 0;
        if (ex[k] == '+') k++; else if (ex[k] == '-') { neg = true; k++; }
        while (k + 1 < ex.size() && ex[k] == '0') k++;
        s = mant + "e" + (neg ? "-" : "") + ex.substr(k);
      }
      return s;
    }
  }
  template <typename OutputStream>
  class Writer {
  public:
    typedef char Ch;
    static const int kDefaultMaxDecimalPlaces = 324;
    explicit Writer(OutputStream& os) : os_(&os), maxDecimalPlaces_(kDefaultMaxDecimalPlaces), hasRoot_(false) {}
    virtual ~Writer() {}
    void SetMaxDecimalPlaces(int m) { maxDecimalPlaces_ = m; }
    bool Null() { Prefix(false); Puts("null"); return EndValue(true); }
    bool Bool(bool b) { Prefix(false); Puts(b ? "true" : "false"); return EndValue(true); }
    bool Int(int i) { return Int64((int64_t)i); }
    bool Uint(unsigned u) { return Uint64((uint64_t)u); }
    bool Int64(int64_t i) { Prefix(false); Puts(std::to_string(i).c_str()); return EndValue(true); }
    bool Uint64(uint64_t u) { Prefix(false); Puts(std::to_string(u).c_str()); return EndValue(true); }
    bool Double(double d) {
      Prefix(false);
      if (std::isnan(d) || std::isinf(d)) return EndValue(false);   // like RapidJSON without kWriteNanAndInfFlag
      std::string s = shim_detail::ShortestDouble(d);
      if (maxDecimalPlaces_ < kDefaultMaxDecimalPlaces) {
        size_t dot = s.find('.');
        if (dot != std::string::npos && s.find('e') == std::string::npos) {
          size_t keep = dot + 1 + (size_t)(maxDecimalPlaces_ < 1 ? 1 : maxDecimalPlaces_);
          if (s.size() > keep) { s.resize(keep); while (s.size() > dot + 2 && s.back() == '0') s.pop_back(); }
        }
      }
      Puts(s.c_str()); return EndValue(true);
    }
    bool String(const Ch* s, SizeType len, bool = false) { Prefix(false); WriteString(s, len); return EndValue(true); }
    bool String(const Ch* s) { return String(s, (SizeType)std::strlen(s)); }
    bool String(const std::string& s) { return String(s.data(), (SizeType)s.size()); }
    bool Key(const Ch* s, SizeType len, bool = false) { Prefix(true); WriteString(s, len); return EndValue(true); }
    bool Key(const Ch* s) { return Key(s, (SizeType)std::strlen(s)); }
    bool Key(const std::string& s) { return Key(s.data(), (SizeType)s.size()); }
    bool RawNumber(const Ch* s, SizeType len, bool = false) { Prefix(false); for (SizeType i = 0; i < len; i++) os_->Put(s[i]); return EndValue(true); }
    bool StartObject() { Prefix(false); levels_.push_back(Level(false)); os_->Put('{'); return true; }
    bool EndObject(SizeType = 0) { bool e = levels_.back().count == 0; levels_.pop_back(); CloseHook(e); os_->Put('}'); return EndValue(true); }
    bool StartArray() { Prefix(false); levels_.push_back(Level(true)); os_->Put('['); return true; }
    bool EndArray(SizeType = 0) { bool e = levels_.back().count == 0; levels_.pop_back(); CloseHook(e); os_->Put(']'); return EndValue(true); }
    bool IsComplete() const { return hasRoot_ && levels_.empty(); }
    void Flush() { os_->Flush(); }
  protected:
    struct Level { Level(bool a) : inArray(a), count(0) {} bool inArray; size_t count; };
    virtual void SeparatorHook(bool /*first*/, bool /*inArray*/, bool /*isValueAfterKey*/) {}
    virtual void CloseHook(bool /*empty*/) {}
    void Prefix(bool /*iskey*/) {
      if (!levels_.empty()) {
        Level& l = levels_.back();
        if (l.inArray) { if (l.count > 0) os_->Put(','); SeparatorHook(l.count == 0, true, false); }
        else {
          if (l.count % 2 == 0) { if (l.count > 0) os_->Put(','); SeparatorHook(l.count == 0, false, false); }
          else { os_->Put(':'); SeparatorHook(false, false, true); }
        }
        l.count++;
      } else hasRoot_ = true;
    }
    bool EndValue(bool ret) { if (levels_.empty()) os_->Flush(); return ret; }
    void Puts(const char* s) { while (*s) os_->Put(*s++); }
    void WriteString(const Ch* s, SizeType len) {
      static const char hex[] = "0123456789ABCDEF";
      os_->Put('"');
      for (SizeType i = 0; i < len; i++) {
        unsigned char c = (unsigned char)s[i];
        switch (c) {
          case '"': os_->Put('\\'); os_->Put('"'); break;
          case '\\': os_->Put('\\'); os_->Put('\\'); break;
          case '\b': os_->Put('\\'); os_->Put('b'); break;
          case '\f': os_->Put('\\'); os_->Put('f'); break;
          case '\n': os_->Put('\\'); os_->Put('n'); break;
          case '\r': os_->Put('\\'); os_->Put('r'); break;
          case '\t': os_->Put('\\'); os_->Put('t'); break;
          default:
            if (c < 0x20) { os_->Put('\\'); os_->Put('u'); os_->Put('0'); os_->Put('0'); os_->Put(hex[c >> 4]); os_->Put(hex[c & 0xF]); }
            else os_->Put((char)c);
        }
      }
      os_->Put('"');
    }
    OutputStream* os_; int maxDecimalPlaces_; bool hasRoot_;
    std::vector<Level> levels_;
  };
  template <typename OutputStream>
  class PrettyWriter : public Writer<OutputStream> {
  public:
    explicit PrettyWriter(OutputStream& os) : Writer<OutputStream>(os) {}
  protected:
    void Indent(size_t depth) { for (size_t i = 0; i < depth * 4; i++) this->os_->Put(' '); }
    void SeparatorHook(bool, bool, bool isValueAfterKey) override {
      if (isValueAfterKey) { this->os_->Put(' '); }
      else { this->os_->Put('\n'); Indent(this->levels_.size()); }
    }
    void CloseHook(bool empty) override { if (!empty) { this->os_->Put('\n'); Indent(this->levels_.size()); } }
  };
}
#endif
