#include "rapidjson/rapidjson.h"
