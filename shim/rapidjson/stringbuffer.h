#include "rapidjson/rapidjson.h"
