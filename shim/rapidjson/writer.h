#include "rapidjson/rapidjson.h"
