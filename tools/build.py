#!/usr/bin/env python3
"""Incremental builder for the verification tiers (DESIGN.md section 2).

Builds, from the *current working tree* of the awkward-1.0 sources (``/repo`` or ``$AKV_REPO``):

* ``libawkward-cpu-kernels.so``  -- src/cpu-kernels/*.cpp               (tier L1)
* ``libawkward.so``              -- src/libawkward/**/*.cpp + kernels + bridge/akbridge.cpp (tier L2)

in two variants: ``rel`` (-O2) and ``san`` (-O1 -g, ASan + UBSan).  Objects are rebuilt only when the
content hash of (flags, source, every header it included last time) changes; nothing is kept in /tmp.

Exit status 2 and a line ``BUILD-FAILED`` if the sources do not compile.
"""
import fcntl
import glob
import hashlib
import json
import os
import subprocess
import sys
import time
from concurrent.futures import ThreadPoolExecutor

VERIF = os.path.dirname(os.path.dirname(os.path.abspath(__file__)))
CXX = os.environ.get("AKV_CXX", "g++")

# per-file sanitizer exceptions, each with its reason (DESIGN.md section 2)
SAN_EXCEPTIONS = {
    # C19 defines Forth arithmetic as wrapping at the machine width; the repository's normal build gives
    # exactly that, and the reference interpreter checks the wrapped values instead.
    "src/libawkward/forth/ForthMachine.cpp": ["-fno-sanitize=signed-integer-overflow,shift"],
    # sums and products of 64-bit integers wrap around like NumPy's (C03's reference model wraps the same way); the
    # wrap itself is the documented result, not an out-of-bounds access
    "src/cpu-kernels/awkward_reduce_prod.cpp": ["-fno-sanitize=signed-integer-overflow"],
    "src/cpu-kernels/awkward_reduce_sum.cpp": ["-fno-sanitize=signed-integer-overflow"],
}


def repo_root():
    return os.path.abspath(os.environ.get("AKV_REPO", "/repo"))


def build_dir(variant):
    root = repo_root()
    if root == "/repo":
        return os.path.join(VERIF, ".build", variant)
    tag = hashlib.sha1(root.encode()).hexdigest()[:10]
    return os.path.join(VERIF, ".build", "alt-" + tag, variant)


def flags(variant):
    common = ["-std=c++11", "-fPIC", "-pthread", "-w", "-DVERSION_INFO=\"1.4.0\"",
              "-DLIBAWKWARD_EXPORT_SYMBOL=EXPORT_SYMBOL"]
    if variant == "rel":
        return common + ["-O2"]
    if variant == "san":
        return common + ["-O1", "-g", "-fno-omit-frame-pointer",
                         "-fsanitize=address,undefined", "-fno-sanitize-recover=undefined",
                         # memcpy/memset of ZERO bytes with the null pointer that malloc(0)-style allocation of an empty
                         # array returns touches no memory; the nonnull *attribute* check would abort on it
                         "-fno-sanitize=nonnull-attribute"]
    raise ValueError(variant)


_hash_cache = {}


def fhash(path):
    try:
        st = os.stat(path)
    except OSError:
        return "missing"
    key = (path, st.st_mtime_ns, st.st_size)
    if key not in _hash_cache:
        with open(path, "rb") as f:
            _hash_cache[key] = hashlib.sha1(f.read()).hexdigest()
    return _hash_cache[key]


def parse_depfile(path):
    try:
        txt = open(path).read()
    except OSError:
        return None
    txt = txt.replace("\\\n", " ")
    if ":" not in txt:
        return None
    deps = txt.split(":", 1)[1].split()
    return deps


def stamp_for(src, deps, fl):
    h = hashlib.sha1()
    h.update(" ".join(fl).encode())
    h.update(fhash(src).encode())
    for d in sorted(set(deps)):
        if d.startswith("/usr/") or d.startswith("/lib/"):
            continue
        h.update(d.encode())
        h.update(fhash(d).encode())
    return h.hexdigest()


def compile_one(job):
    src, obj, fl, incs = job
    dep = obj[:-2] + ".d"
    stampf = obj[:-2] + ".stamp"
    deps = parse_depfile(dep)
    if deps is not None and os.path.exists(obj) and os.path.exists(stampf):
        if open(stampf).read() == stamp_for(src, deps, fl):
            return (src, "cached", "")
    os.makedirs(os.path.dirname(obj), exist_ok=True)
    cmd = [CXX] + fl + incs + ["-MMD", "-MF", dep, "-c", src, "-o", obj]
    p = subprocess.run(cmd, stdout=subprocess.PIPE, stderr=subprocess.STDOUT, text=True)
    if p.returncode != 0:
        for f in (obj, stampf):
            if os.path.exists(f):
                os.unlink(f)
        return (src, "failed", p.stdout[-4000:])
    deps = parse_depfile(dep) or []
    with open(stampf, "w") as f:
        f.write(stamp_for(src, deps, fl))
    return (src, "built", "")


def ensure_generated(root, bdir):
    """kernels.h is a generated, git-ignored file; regenerate into the build dir if the tree lacks it."""
    kh = os.path.join(root, "include", "awkward", "kernels.h")
    if os.path.exists(kh):
        return []
    gen = os.path.join(bdir, "geninclude", "awkward")
    os.makedirs(gen, exist_ok=True)
    out = os.path.join(gen, "kernels.h")
    sys.path.insert(0, os.path.join(VERIF, "tools"))
    import genkernels_h
    genkernels_h.generate(os.path.join(root, "kernel-specification.yml"), out)
    return ["-I" + os.path.join(bdir, "geninclude")]


def build(variant, verbose=False, want=("kernels", "awkward")):
    root = repo_root()
    bdir = build_dir(variant)
    os.makedirs(bdir, exist_ok=True)
    lock = open(os.path.join(bdir, ".lock"), "w")
    fcntl.flock(lock, fcntl.LOCK_EX)
    try:
        return _build_locked(root, bdir, variant, verbose, want)
    finally:
        fcntl.flock(lock, fcntl.LOCK_UN)
        lock.close()


def _build_locked(root, bdir, variant, verbose, want):
    t0 = time.time()
    fl = flags(variant)
    incs = ensure_generated(root, bdir) + ["-I" + os.path.join(root, "include"),
                                           "-I" + os.path.join(VERIF, "shim")]
    ksrcs = sorted(glob.glob(os.path.join(root, "src", "cpu-kernels", "*.cpp")))
    asrcs = sorted(glob.glob(os.path.join(root, "src", "libawkward", "**", "*.cpp"), recursive=True))
    bsrcs = sorted(glob.glob(os.path.join(VERIF, "bridge", "*.cpp")))
    jobs = []
    kobjs, aobjs = [], []
    for s in ksrcs:
        o = os.path.join(bdir, "obj", "k", os.path.basename(s)[:-4] + ".o")
        kobjs.append(o)
        extra = SAN_EXCEPTIONS.get(os.path.relpath(s, root), []) if variant == "san" else []
        jobs.append((s, o, fl + extra, incs))
    if "awkward" in want:
        for s in asrcs:
            rel = os.path.relpath(s, root)
            o = os.path.join(bdir, "obj", "a", rel.replace("/", "__")[:-4] + ".o")
            aobjs.append(o)
            extra = SAN_EXCEPTIONS.get(rel, []) if variant == "san" else []
            jobs.append((s, o, fl + extra, incs))
        for s in bsrcs:
            o = os.path.join(bdir, "obj", "b", os.path.basename(s)[:-4] + ".o")
            aobjs.append(o)
            jobs.append((s, o, fl, incs))
    # biggest translation units first
    jobs.sort(key=lambda j: -os.path.getsize(j[0]))
    nbuilt = 0
    failed = []
    with ThreadPoolExecutor(max_workers=int(os.environ.get("AKV_JOBS", "16"))) as ex:
        for src, st, out in ex.map(compile_one, jobs):
            if st == "built":
                nbuilt += 1
            elif st == "failed":
                failed.append((src, out))
    if failed:
        for src, out in failed[:3]:
            sys.stderr.write("---- %s\n%s\n" % (src, out))
        print("BUILD-FAILED %d file(s), first: %s" % (len(failed), failed[0][0]))
        return None
    libk = os.path.join(bdir, "libawkward-cpu-kernels.so")
    liba = os.path.join(bdir, "libawkward.so")
    lfl = ["-shared", "-pthread"] + (["-fsanitize=address,undefined"] if variant == "san" else [])

    def link(target, objs):
        newest = max(os.path.getmtime(o) for o in objs)
        if os.path.exists(target) and os.path.getmtime(target) >= newest and \
           _objlist_same(target, objs):
            return True
        tmp = target + ".tmp"
        p = subprocess.run([CXX] + lfl + ["-o", tmp] + objs + ["-ldl"],
                           stdout=subprocess.PIPE, stderr=subprocess.STDOUT, text=True)
        if p.returncode != 0:
            sys.stderr.write(p.stdout[-4000:])
            print("BUILD-FAILED link %s" % target)
            return False
        os.replace(tmp, target)
        with open(target + ".objs", "w") as f:
            f.write("\n".join(objs))
        return True

    def _objlist_same(target, objs):
        try:
            return open(target + ".objs").read() == "\n".join(objs)
        except OSError:
            return False

    if not link(libk, kobjs):
        return None
    if "awkward" in want:
        if not link(liba, kobjs + aobjs):
            return None
    info = {"variant": variant, "root": root, "dir": bdir, "libkernels": libk, "libawkward": liba,
            "recompiled": nbuilt, "sources": len(jobs), "wall_s": round(time.time() - t0, 2)}
    if verbose:
        print(json.dumps(info))
    return info


def asan_runtime():
    p = subprocess.run([CXX, "-print-file-name=libasan.so"], stdout=subprocess.PIPE, text=True)
    return os.path.realpath(p.stdout.strip())


def main():
    variants = [a for a in sys.argv[1:] if not a.startswith("-")] or ["rel"]
    for v in variants:
        info = build(v, verbose=True)
        if info is None:
            sys.exit(2)


if __name__ == "__main__":
    main()
