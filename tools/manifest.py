#!/usr/bin/env python3
"""Regenerates /verif/MANIFEST.json from the table below (keeps it valid and consistent)."""
import json
import os

VERIF = os.path.dirname(os.path.dirname(os.path.abspath(__file__)))

TRUST = ("Trusted base: g++ 12 / ASan, CPython, NumPy, our RapidJSON stand-in (shim/), the C++ bridge (bridge/) and the "
         "pure-Python replacement of the pybind11 module (mirror/), both self-tested against the reference layout semantics; the "
         "reference models in model/. src/python/*.cpp cannot be compiled in this sandbox (no pybind11) and is not reached.")

CHECKS = {
    "C01": ("model_checking", "E1", "Bounded-exhaustive exploration: every array of a type menu x every physical encoding x every slice "
            "expression of a full single-item alphabet and of all pairs (thorough: triples) over a reduced alphabet is executed on the "
            "real C++ getitem and compared with a level-by-level Python/NumPy reference; out-of-range must raise (by type for regular "
            "dimensions).", "explicit-state bounded exhaustive exploration (layout x slice), reference-model oracle"),
    "C02": ("model_checking", "E1", "Differential exploration: for every value, each re-encoding (<=1 quick / <=2 thorough non-canonical "
            "nodes) must give the same value and the same success/error outcome as the canonical encoding under the union alphabet of "
            "structural operations.", "explicit-state bounded exhaustive exploration, differential oracle between encodings"),
    "C03": ("model_checking", "E1", "Every array (ties, zeros, missing values and lists, empty lists) x encoding x 10 reducers x every axis "
            "x mask_identity x keepdims against the group-by-coordinates definition.", "explicit-state bounded exhaustive exploration, reference-model oracle"),
    "C04": ("exploration", "E4", "All ordered pairs of operands (awkward arrays over a numeric type menu incl. size-1 regular dimensions, "
            "options, canonical + one non-canonical encoding; Python scalars; 1-2-d NumPy arrays) x 7 binary and 2 unary ufuncs through the "
            "repository's own broadcast_and_apply / array_ufunc / operator mix-in, against reference NumPy-right / tree-left broadcasting.",
            "bounded exhaustive enumeration of operand pairs on the real Python layer (tier L3), reference-model oracle"),
    "C05": ("model_checking", "E1", "num / flatten / local_index at every axis on every array x encoding against list laws; illegal axes "
            "must raise.", "explicit-state bounded exhaustive exploration, reference-model oracle"),
    "C06": ("model_checking", "E1", "sort/argsort at every axis x ascending x stable on arrays with ties, NaN, strings, missing values; "
            "ordering, permutation, stability and NaN-first/None-last checked per list.", "explicit-state bounded exhaustive exploration, reference-model oracle"),
    "C07": ("model_checking", "E1", "combinations(n, replacement, axis, keys) for n in 0..5 on every array x list encoding against "
            "itertools.", "explicit-state bounded exhaustive exploration, itertools oracle"),
    "C09": ("model_checking", "E1", "rpad/rpad_and_clip (targets 0..4, every axis), fillna and the option-encoding conversions on arrays "
            "with options at any level in all five option encodings (bit masks with garbage padding bits).", "explicit-state bounded exhaustive exploration, reference-model oracle"),
    "C08": ("model_checking", "E1", "Ordered pairs of arrays over a type menu (same/different types, EmptyArray, options, records, "
            "unions; canonical and one non-canonical encoding each) under mergeable/merge/mergemany/merge_as_union/reverse merge against "
            "list concatenation and the type rule; all 13x13 numeric dtype pairs against numpy.concatenate; numbers_to_type over all "
            "dtype pairs with boundary values against numpy.astype; simplify on every directly nested option/indexed/union layout of "
            "depth <= 2 (thorough 3).", "explicit-state bounded exhaustive exploration, NumPy / list-concatenation oracle"),
    "C10": ("model_checking", "E1", "Record-bearing arrays x encodings x (field path, positional slice) pairs executed in both orders and "
            "as one tuple, field-list projection, setitem_field; both orders must equal the reference projection of the reference "
            "slice.", "explicit-state bounded exhaustive exploration, reference-model + commutation oracle"),
    "C11": ("model_checking", "E1", "Every layout of a grammar with all small index vectors (valid and invalid) is judged by the "
            "implementation and by the documented rules; every structural operation on every valid layout of the value universe x "
            "encodings must return a layout that passes the validity check.", "explicit-state bounded exhaustive exploration of layouts x operations, documented-rules oracle"),
    "C12": ("model_checking", "E1/san", "AddressSanitizer+UBSan build of /repo: bounded operation histories (two operations sharing one "
            "input, input released, heap churned and poisoned, results re-read) over the value universe x encodings with input bytes "
            "compared before/after, plus the check/print/convert entry points on the full valid+invalid layout grammar; a signal, "
            "sanitizer report, hang, modified input or unstable result is a violation.",
            "bounded exhaustive exploration of operation histories under sanitizers (ASan/UBSan as the memory oracle)"),
    "C13": ("exploration", "E2", "All 690 specialisations of the 198 kernels of kernel-specification.yml: the executable Python definition is "
            "the reference; inputs are enumerated lazily (an array element becomes a choice point when the definition first reads it) over "
            "per-type domains incl. width extremes, under role preconditions; the compiled kernel runs on identical inputs in exact-extent "
            "buffers with guard zones; status, every written output, guard zones and cross-specialisation agreement are compared. Kernels "
            "whose YAML entry has no executable definition are compared with a harness-side definition where one exists "
            "(model/kernelspec_extra.py: the sort family, sorting_ranges, unique, subrange_equal, the string sorts, preparenext, the "
            "byte copies, fill_tocomplex; non-unique answers such as unstable argsort ties go through a checker that accepts every "
            "sorted permutation); the remaining kernels without a definition get the extent / crash / filler-independence / "
            "cross-specialisation checks only.",
            "bounded exhaustive (deviation-bounded, lazily branching) enumeration of kernel inputs against the executable specification"),
    "C14": ("model_checking", "E3", "Explicit-state search over ArrayBuilder command histories (17-command alphabet quick, 31 thorough; well- "
            "and ill-nested; depth 5 / 6) with the reference builder's state as the state key; every transition replayed on a fresh real "
            "ArrayBuilder under four buffer-growth settings; length, to_list(snapshot), type-as-a-function-of-state, immutability of "
            "earlier snapshots and the position of errors are checked after every command.",
            "explicit-state exploration of command histories with state merging, reference-model oracle stepped in lock-step"),
    "C15": ("fault_enumeration", "E3", "Output: every primitive dtype at its limits, strings with every escape class, strided buffers x 13 "
            "structural contexts, nesting depth 1..64(400), the value universe x encodings, NaN/inf under all 8 string subsets, complex with "
            "and without complex_record_fields: tojson compact/pretty, string and FILE* with every write-buffer size, parsed back and "
            "compared with the reference value; from_json(to_json(a)). Input: a 100-document alphabet x 3 whitespace styles x raw/escaped "
            "non-ASCII x string sets, streams of 0..3 documents x 5 separators, FromJsonString and FromJsonFile with every read-buffer size "
            "and 0..3 bytes of shift, against a reference stream parser + reference builder + the real ArrayBuilder fed from_iter's commands. "
            "Faults: every prefix, every single-byte substitution (13-byte alphabet quick, all 256 thorough), insertion and deletion at every "
            "position, and pairs of substitutions on short texts: still-valid text -> reference value, malformed -> error and no array. "
            "ak.to_json/ak.from_json (files, partitions, complex_record_fields) at tier L3.",
            "exhaustive fault enumeration (truncation/corruption points x buffer boundaries) over real FromJson*/tojson executions with a reference parser/builder oracle"),
    "C16": ("exploration", "E4", "Every array of the type menu x encodings through to_buffers/from_buffers (form_key, key_format, raw-bytes "
            "containers, partitions), pickle, from_numpy/to_numpy over shapes x dtypes x memory layouts and masks, to_arrow/from_arrow x "
            "32-bit options; round-trip value, type and (where promised) option-ness compared by the reference layout interpreter.",
            "bounded exhaustive enumeration of conversion round trips on the real Python layer (tier L3)"),
    "C17": ("exploration", "E1+E4", "Every layout of the value universe x encodings and every valid layout of the C11 grammar: type of form "
            "equals type of array equals the reference skeleton; depth/field/regularity queries agree between Content, Form and the "
            "reference; Form JSON round trips (verbose and terse) incl. a parameter alphabet of JSON values on every node class; printed "
            "types are re-parsed by the repository's type parser; range slices keep the type and elements match the item type.",
            "bounded exhaustive enumeration of layouts/forms/types on the real code, reference type-skeleton oracle"),
    "C18": ("model_checking", "E3", "Virtual: real VirtualArray objects whose ArrayCache and ArrayGenerator are scripted by the explorer; "
            "every configuration (9-type value menu x wrapping at the root or one child node x declared length/form incl. false "
            "declarations x cache/no cache) x every operation of a 13-entry special alphabet and the generic structural alphabet, singly "
            "and in ordered sequences of 2 (thorough also 3) operations and interleaved over two arrays sharing a cache; at every "
            "cache.get / cache.set / generate the explorer chooses the answer (hit, evicted, mapping dies; store, drop, raise; ok, "
            "raise, wrong length, wrong form); all executions with <= 1 (quick) / <= 2 (thorough) non-default answers run to completion "
            "on fresh objects and are compared with the eager array; laziness and enforcement of declarations are checked. Partitioned: "
            "every split of every array of length <= 4 (5) into 1..3 partitions x getitem_at at every position, getitem_range over the "
            "whole (start, stop, step) grid, repartition to every stop vector, tojson; ak.partitioned / ak.repartition / ak.virtual / "
            "from_buffers(lazy=True) under 30 high-level operations at tier L3.",
            "deviation-bounded exhaustive exploration of environment answers (cache/generator) on real VirtualArray executions; exhaustive enumeration of partitionings"),
    "C19": ("model_checking", "E3", "Programs over the whole built-in vocabulary (operand tuples x words and word pairs, control-flow "
            "templates, typed reads/writes over prefix-closed byte strings, one-token mutations for the compile-error half) x 32/64-bit "
            "machines x stack/recursion/output-growth settings x execution schedules (run, begin+resume, single steps, step^k+resume, "
            "call at pauses, decompile+recompile, run twice); the observable state after every segment is compared between all schedule "
            "paths (confluence) and with a reference interpreter.",
            "explicit exploration of the schedule graph of real ForthMachine executions, reference-interpreter oracle"),
    "C20": ("exploration", "E4", "Access programs generated from the array type (full traversal by iteration / positive index / negative "
            "index, every range slice, field access in four spellings, 'in' tests, np.asarray of numeric leaves, early exits, "
            "pass-through of the array, of every item incl. out-of-range positions, and of every slice, len) are compiled by Numba "
            "through the repository's lowering and run on every array of a 20-type (29 thorough) menu in every physical encoding "
            "(k <= 1) and wrapped by ak.virtual / ak.partitioned; the same function run by the interpreter, the array's to_list and "
            "the reference counts of the Python objects are the oracle; seven ArrayBuilder programs and five ill-nested ones compiled "
            "vs interpreted.",
            "bounded exhaustive enumeration of (array, generated access program) pairs executed through the real Numba lowering, differential oracle against the interpreter"),
}

L3_NOTES = {
    "C01": " Tier L3 half: ak.Array.__getitem__ with user-level slice objects (lists, lists with None, awkward arrays, partitioned indexes) on eager and partitioned arrays.",
    "C03": " Tier L3 half: ak.sum/prod/... at every axis and axis=None with mask_identity/keepdims on eager and partitioned arrays; ragged rows with distinct labels; encodings of one value must agree where two answers are admitted.",
    "C05": " Tier L3 half: ak.num/local_index/flatten (incl. axis=None and result types), ak.ravel, ak.unflatten laws.",
    "C06": " Tier L3 half: ak.sort/ak.argsort at every axis on eager and partitioned arrays; every leaf dtype at its extremes; lists beyond the small-input thresholds.",
    "C07": " Tier L3 half: ak.combinations/argcombinations (fields=) and ak.cartesian/argcartesian (lists and dicts, nested) against itertools.",
    "C08": " Tier L3 half: ak.concatenate at axis 0, 1, -1 incl. option-of-list inputs; operands with reversed record field order.",
    "C09": " Tier L3 half: ak.pad_none/fill_none(axis)/is_none(axis)/mask incl. option records; option nodes spanning several mask bytes.",
    "C10": " Tier L3 half: ak.fields, x['k'], x.k, ak.unzip, ak.zip, ak.with_field, __setitem__; field-list projections at depth.",
    "C14": " Tier L3 half: ak.from_iter and the high-level ak.ArrayBuilder over singles, pairs and triples of a 24-value atom menu.",
}

ENGINES = [
    {"name": "E4", "path": "mirror/install.py mirror/*.py checks/c04_broadcasting.py checks/c16_conversions.py checks/c20_numba.py mirror/numba_compat.py",
     "serves_properties": ["C04", "C16", "C20"],
     "kind_free_text": "the repository's own Python layer (/repo/src/awkward) imported unmodified on top of a pure-Python mirror of "
                       "awkward._ext that forwards every behaviour to the freshly built libawkward"},
    {"name": "E3", "path": "checks/c14_builders.py model/refbuilder.py mirror/builder.py bridge/akb_builder.cpp checks/c19_forth.py model/refforth.py mirror/forth.py bridge/akb_forth.cpp checks/c15_json.py mirror/jsonio.py bridge/akb_json.cpp checks/c18_virtual.py mirror/virtual.py bridge/akb_virtual.cpp",
     "serves_properties": ["C14", "C15", "C18", "C19"],
     "kind_free_text": "history explorer: breadth-first search over command sequences against stateful C++ objects with a reference "
                       "model stepped in lock-step"},
    {"name": "E2", "path": "mc/e2.py model/kernelspec.py checks/c13_kernels.py checks/c13_raw.py",
     "serves_properties": ["C13"],
     "kind_free_text": "kernel explorer: choice-sequence enumeration of inputs of the compiled cpu-kernels against kernel-specification.yml"},
    {"name": "E1", "path": "mc/e1.py mc/opalpha.py model/ checks/c0*.py checks/c11_validity.py",
     "serves_properties": sorted(k for k, v in CHECKS.items() if v[1].startswith("E1")),
     "kind_free_text": "explicit-state exploration of (physical layout, operation) transitions on the real libawkward built from /repo, "
                       "against reference models that never call the library"},
]

NOT_YET = "check under construction in this snapshot (DESIGN.md 12 build order); not a statement that the technique cannot apply"


def main():
    checks = []
    for pid in sorted(CHECKS):
        level, engine, text, technique = CHECKS[pid]
        checks.append({
            "property_id": pid,
            "quick_cmd": "./check %s --tier quick" % pid,
            "thorough_cmd": "./check %s --tier thorough" % pid,
            "evidence_file": "/verif/evidence/%s.json" % pid,
            "replay_cmd_template": "./check %s --replay {path}" % pid,
            "engine": engine,
            "level_claimed": {"category": level, "text": text + L3_NOTES.get(pid, ""),
                              "design_ref": "DESIGN.md section 5 and 13.2, %s" % pid},
            "level_note": TRUST,
            "technique": technique,
        })
    na = []
    for i in range(1, 21):
        pid = "C%02d" % i
        if pid not in CHECKS:
            na.append({"property_id": pid, "reason": NOT_YET})
    m = {
        "version": 1,
        "setup_cmd": "cd /verif && python3 tools/build.py rel san",
        "hooks": {
            "guard": "AWKWARD_VERIF",
            "enable": "no hooks: all instrumentation is out of tree (sanitizer build flags, the C++ bridge in /verif/bridge linked with "
                      "libawkward, scripted caches/generators); every check rebuilds /repo's C++ sources incrementally on each run",
            "baseline_off_cmd": "cd /repo && /venv/bin/python -m pytest -ra -q -p no:cacheprovider --timeout=900 --continue-on-collection-errors",
            "source_commits": [],
            "add_only": True,
        },
        "engines": ENGINES,
        "checks": checks,
        "not_applicable": na,
        "notes": "Genuine defects of the unchanged tree are either repaired by 'fix:' commits in /repo or listed in /verif/known_findings.json; "
                 "see DESIGN.md section 7.",
    }
    with open(os.path.join(VERIF, "MANIFEST.json"), "w") as f:
        json.dump(m, f, indent=1)


if __name__ == "__main__":
    main()
