#!/usr/bin/env python3
"""Run a demonstration script that uses the public awkward API against the Python layer of $AKV_REPO (default /repo),
on the tier-L3 mirror.  usage: AKV_REPO=<tree> tools/pydemo.py demo.py [--numba]"""
import os
import sys
import runpy
import warnings

VERIF = os.path.dirname(os.path.dirname(os.path.abspath(__file__)))
for sub in ("mirror", "bridge", "mc", "model", "tools"):
    sys.path.insert(0, os.path.join(VERIF, sub))
warnings.filterwarnings("ignore")
if "--numba" in sys.argv:
    os.environ.setdefault("NUMBA_OPT", "0")
    import numba_compat
    numba_compat.apply()
import install
ak = install.install()
if "--numba" in sys.argv:
    numba_compat.after_register(ak)
runpy.run_path(sys.argv[1], run_name="__main__")
