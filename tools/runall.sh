#!/bin/sh
# usage: tools/runall.sh quick|thorough [ids...]   -- runs the registered checks one after another
cd "$(dirname "$0")/.."
TIER="${1:-quick}"; shift
IDS="$@"
[ -z "$IDS" ] && IDS="$(python3 -c "import json; print(' '.join(c['property_id'] for c in json.load(open('MANIFEST.json'))['checks']))")"
rc=0
for id in $IDS; do
  ./check "$id" --tier "$TIER" > ".build/last_$id.log" 2>&1; r=$?
  tail -1 ".build/last_$id.log" | cut -c1-220
  [ $r -ne 0 ] && { echo "  -> exit $r"; rc=1; }
done
exit $rc
