#!/usr/bin/env python3
"""Run checks against a seeded property-breaking change without touching /repo.

usage: tools/seedtest.py <seeded-id-or-patch.diff> [--tier quick] [CHECK ...]

Creates a scratch worktree of /repo's HEAD under /tmp, applies the patch, runs each named check (default: the
property recorded in the seeded change's meta.json) with AKV_REPO pointing at the worktree, prints one line per
check (DETECTED / MISSED), and removes the worktree and its build output again.  Exit 0 iff every check detected it.
"""
import json
import os
import shutil
import subprocess
import sys
import hashlib

VERIF = os.path.dirname(os.path.dirname(os.path.abspath(__file__)))


def main(argv):
    tier = "quick"
    args = []
    it = iter(argv)
    for a in it:
        if a == "--tier":
            tier = next(it)
        else:
            args.append(a)
    what = args[0]
    if os.path.isfile(what):
        patch, sid, meta = os.path.abspath(what), os.path.basename(what).replace(".", "_"), {}
    else:
        d = os.path.join(VERIF, "seeded", what)
        patch, sid = os.path.join(d, "patch.diff"), what
        meta = json.load(open(os.path.join(d, "meta.json")))
    checks = args[1:] or meta.get("checks") or [meta["property"]]
    wt = "/tmp/akv-seed-" + sid
    subprocess.run(["git", "-C", "/repo", "worktree", "remove", "--force", wt], stdout=subprocess.DEVNULL, stderr=subprocess.DEVNULL)
    subprocess.run(["git", "-C", "/repo", "worktree", "add", "--detach", wt, "HEAD"], check=True, stdout=subprocess.DEVNULL,
                   stderr=subprocess.DEVNULL)
    alt = os.path.join(VERIF, ".build", "alt-" + hashlib.sha1(wt.encode()).hexdigest()[:10])
    ok = True
    try:
        subprocess.run(["git", "-C", wt, "apply", patch], check=True)
        # kernels.h is generated (git-ignored): take the one of /repo
        for rel in ("include/awkward/kernels.h", "src/awkward/_kernel_signatures.py"):
            if os.path.exists(os.path.join("/repo", rel)) and not os.path.exists(os.path.join(wt, rel)):
                shutil.copy(os.path.join("/repo", rel), os.path.join(wt, rel))
        env = dict(os.environ, AKV_REPO=wt, PYTHONDONTWRITEBYTECODE="1")
        for c in checks:
            p = subprocess.run([os.path.join(VERIF, "check"), c, "--tier", tier, "--no-evidence"], env=env, stdout=subprocess.PIPE,
                               stderr=subprocess.STDOUT, text=True)
            viol = [l for l in p.stdout.splitlines() if l.startswith("VIOLATION")]
            det = p.returncode == 1 and bool(viol)
            ok = ok and det
            print("%s %s seeded=%s exit=%d violations=%d" % ("DETECTED" if det else "MISSED", c, sid, p.returncode, len(viol)))
            for l in p.stdout.splitlines():
                if l.startswith("VIOLATION") or "BUILD-FAILED" in l or l.startswith("  "):
                    print("   ", l[:300])
                    break
            if p.returncode not in (0, 1):
                print(p.stdout[-1500:])
    finally:
        subprocess.run(["git", "-C", "/repo", "worktree", "remove", "--force", wt], stdout=subprocess.DEVNULL, stderr=subprocess.DEVNULL)
        shutil.rmtree(wt, ignore_errors=True)
        shutil.rmtree(alt, ignore_errors=True)
    return 0 if ok else 1


if __name__ == "__main__":
    sys.exit(main(sys.argv[1:]))
