#!/usr/bin/env python3
"""Self-test of the trusted base: encodings x layoutsem x bridge agree on the unchanged tree."""
import json, os, sys, time
VERIF = os.path.dirname(os.path.dirname(os.path.abspath(__file__)))
for sub in ("mc", "model", "mirror", "bridge"):
    sys.path.insert(0, os.path.join(VERIF, sub))
import numpy as np
import values, encs as encodings, layoutsem, layouts, ext

def main():
    t0 = time.time()
    n = 0; bad = 0
    N = int(os.environ.get("ST_N", "2")); M = int(os.environ.get("ST_M", "2")); K = int(os.environ.get("ST_K", "1"))
    for T in values.TYPES_THOROUGH:
        cnt = 0
        for tvs in values.arrays(T, N, M, K=6):
            if cnt > 3000: break
            want = values.strip(tvs)
            for d, names in encodings.encodings(T, tvs, K):
                n += 1; cnt += 1
                got = layoutsem.to_list(d)
                if not layoutsem.same(got, want):
                    bad += 1; print("MODEL", values.tstr(T), names, want, got); continue
                if layoutsem.validity_error(d) is not None:
                    bad += 1; print("MODEL-INVALID", values.tstr(T), names, layoutsem.validity_error(d), layouts.short(d)); continue
                lay = layouts.build(d)
                ve = lay.validityerror()
                if ve is not None:
                    bad += 1; print("IMPL-INVALID", values.tstr(T), names, ve[:100], layouts.short(d)); continue
                back = layoutsem.to_list(ext.describe(lay))
                if not layoutsem.same(back, want):
                    bad += 1; print("DESCRIBE", values.tstr(T), names, want, back); continue
                if len(lay) != len(want):
                    bad += 1; print("LEN", values.tstr(T), names)
                if bad > 20: return 1
        print("%-40s %d" % (values.tstr(T), cnt))
    print("selftest cases=%d bad=%d wall=%.1fs" % (n, bad, time.time() - t0))
    return 1 if bad else 0

if __name__ == "__main__":
    sys.exit(main())
