"""in-process driver: python drive.py family bits tier [maxcases]"""
import sys, os, time, collections
sys.path[:0] = ["/verif/checks", "/verif/mc", "/verif/model", "/verif/mirror", "/verif/bridge", "/verif/tools"]
os.environ.setdefault("AKV_NOBUILD", "1")
import runner, c19_forth as C
fam, bits, tier = sys.argv[1], int(sys.argv[2]), sys.argv[3]
mx = int(sys.argv[4]) if len(sys.argv) > 4 else 10**9
st = runner.Stats(); ex = C.Explorer(st, tier)
t0 = time.time(); n = 0
for idx, case in enumerate(C.FAMILIES[fam](bits, tier)):
    if idx >= mx: break
    ex.explore(case, bits); n += 1
dt = time.time() - t0
print("cases", n, "time %.2fs" % dt, "per case %.2f ms" % (1000 * dt / max(n, 1)))
print("evals", st.evaluations, "states", st.states, "transitions", st.transitions, "nontrivial", st.nontrivial)
print("outcomes", st.outcomes)
print("violations_total", st.counters.get("violations_total"))
groups = collections.Counter()
ex1 = {}
for v in st.violations:
    k = tuple((kk, str(v[kk])) for kk in sorted(v) if kk not in ("summary", "case", "operands", "template", "expected_error", "observed_error"))
    groups[k] += 1; ex1.setdefault(k, v)
for k, c in groups.most_common(40):
    print(c, dict(k)); print("      ", ex1[k]["summary"][:int(os.environ.get("W","600"))].replace("\n", "\n       "))
