"""run each case of a family in a forked child; print those that die"""
import sys, os, time
sys.path[:0] = ["/verif/checks", "/verif/mc", "/verif/model", "/verif/mirror", "/verif/bridge", "/verif/tools"]
os.environ.setdefault("AKV_NOBUILD", "1")
import runner, c19_forth as C
fam, bits, tier = sys.argv[1], int(sys.argv[2]), sys.argv[3]
lo = int(sys.argv[4]) if len(sys.argv) > 4 else 0
hi = int(sys.argv[5]) if len(sys.argv) > 5 else 10**9
C.akb.lib()
for idx, case in enumerate(C.FAMILIES[fam](bits, tier)):
    if not (lo <= idx < hi): continue
    def f():
        st = runner.Stats(); ex = C.Explorer(st, tier); ex.explore(case, bits); return len(st.violations)
    r = C.isolated(f, timeout=20)
    if r[0] != "ok":
        print(idx, repr(case.source), case.inputs, r); sys.stdout.flush()
