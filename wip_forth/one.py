import sys, os
sys.path[:0] = ["/verif/checks", "/verif/mc", "/verif/model", "/verif/mirror", "/verif/bridge", "/verif/tools"]
os.environ.setdefault("AKV_NOBUILD", "1")
import runner, c19_forth as C
def one(src, bits=32, inputs=(), tier="quick", family="control", cfgs=None, **meta):
    st = runner.Stats(); ex = C.Explorer(st, tier)
    case = C.Case(family, src, list(inputs), **meta)
    if cfgs is None:
        ex.explore(case, bits)
    else:
        prog = C.R.compile_source(src, bits)
        for cfg in cfgs: ex.explore_cfg(case, bits, cfg, prog, "ok", True)
    print(src, st.outcomes)
    for v in st.violations:
        print("   ", v["summary"][:int(os.environ.get("W", "500"))].replace("\n", "\n    "))
        print("      sig:", {k: v[k] for k in v if k not in ("summary", "case")})
if __name__ == "__main__":
    for s in sys.argv[1:]: one(s)
