import sys, os
sys.path[:0] = ["/verif/mc", "/verif/model", "/verif/mirror", "/verif/bridge", "/verif/tools"]
os.environ.setdefault("AKV_NOBUILD", "1")
import akb, forth
def run(src, bits=32, inputs=None, mode="run", **kw):
    try:
        m = forth.ForthMachine(src, bits=bits, **kw)
    except akb.BridgeError as e:
        return ("COMPILE", str(e)[:100])
    m.set_inputs(inputs or {})
    if mode == "run":
        e = m.run()
        return (forth.ERRORS[e], m.stack, m.status_raw(), forth.decode_snapshot(m.snapshot()))
    else:
        m.begin()
        tr = []
        for k in range(kw.get("n", 40) if False else 40):
            e = m.step()
            tr.append((forth.ERRORS[e], m.stack, m.status_raw()[1], m.status_raw()[4]))
            if e != 0: break
        return tr
if __name__ == "__main__":
    for src in sys.argv[1:]:
        for bits in (32, 64):
            print(bits, repr(src), run(src, bits))
def steps(src, bits=32, inputs=None, n=40, **kw):
    m = forth.ForthMachine(src, bits=bits, **kw)
    m.set_inputs(inputs or {})
    m.begin()
    tr = []
    for k in range(n):
        e = m.step()
        s = m.status_raw()
        tr.append((forth.ERRORS[e], m.stack, "done" if s[1] else "", s[4], s[2]))
        if e != 0: break
    return tr
