import sys; sys.path.insert(0,"/verif/wip_forth")
from probe import *
import refforth as R
def ref(src, bits=32, inputs=None, **kw):
    p = R.compile_source(src, bits)
    m = R.RefMachine(p, bits, **kw)
    seq = []
    e = m.run(inputs or {})
    seq.append((R.ERRORS[e], R.describe(m.words())))
    while e == 0 and not m.done:
        e = m.resume(); seq.append((R.ERRORS[e], R.describe(m.words())))
    return seq, m
for src in ["1 2 +", "3 0 do i loop 9", ": f 7 exit ; 3 0 do f loop", "0 if 5 else 6 then 7", "1 2 pause 3", "3 begin 1- dup 0= until", "10 0 do i 4 +loop",
            "4 begin dup 1 - dup 0= invert while 123 drop repeat", ": foo 3 begin dup 1 - dup 0= if exit then again ; foo", ": factorial dup 2 < if drop 1 exit then dup 1- recurse * ; 5 factorial",
            "variable x 5 x ! 3 x +! x @", "-22 7 /mod", "22 -7 mod", "1 2 3 rot tuck", "5 0 do i pause loop"]:
    seq, m = ref(src)
    print(src, "\n  ref:", [(e, d["stack"], d["is_done"]) for e, d in seq], "\n  c++:", run(src)[:2])
